"""Driver: verify one function against its contract, path by path, and report named obligations."""
from __future__ import annotations
import time
import traceback
import z3

from .values import V, NONE, VNone, VInt, VBool, VBytes, VStr, VList, VTuple, VDict, VObj, VEnum, VSeq, VTag, VLib, \
    VOpaque, VExc, PyRaise, OutOfSubset, VClass
from .interp import Interp, World, Env, Infeasible, OldEnv, PathEnd
from .types import make_value, snapshot
from . import clauses, smt


class Ctx:
    """What a custom check sees at the end of a path."""

    def __init__(self, it, env, old_env, outcome, result, exc):
        self.it, self.env, self.old_env = it, env, old_env
        self.outcome = outcome  # 'return' | 'raise'
        self.result = result
        self.exc = exc  # python exception class or None

    def arg(self, name):
        return self.env.lookup(name)

    def old(self, name):
        return self.old_env.lookup(name)

    def eval(self, text):
        import ast
        from .contract import Clause
        return clauses.eval_value(self.it, Clause("adhoc", text, "adhoc"), self.env)

    def formula(self, text):
        from .contract import Clause
        return clauses.eval_clause(self.it, Clause("adhoc", text, "adhoc"), self.env)


def concretize(model, v, depth=0):
    """Project a model onto a value (for counterexample reports and native replay)."""
    def ev(e):
        return model.eval(e, model_completion=True)
    try:
        if isinstance(v, VNone):
            return None
        if isinstance(v, VInt):
            return v.conc if v.conc is not None else ev(v.e).as_long()
        if isinstance(v, VBool):
            return v.conc if v.conc is not None else z3.is_true(ev(v.e))
        if isinstance(v, VBytes):
            if v.conc is not None:
                return v.conc
            n = ev(z3.Length(v.e)).as_long()
            if n > 4096:
                return {"__bytes_len__": n}
            out = []
            for i in range(n):
                x = ev(v.e[i])
                out.append(x.as_long() % 256 if z3.is_int_value(x) else 0)
            return bytes(out)
        if isinstance(v, VStr):
            if v.conc is not None:
                return v.conc
            x = ev(v.e)
            return x.as_string() if z3.is_string_value(x) else str(x)
        if isinstance(v, (VList, VTuple)):
            r = [concretize(model, x, depth + 1) for x in v.items]
            return r if isinstance(v, VList) else tuple(r)
        if isinstance(v, VSeq):
            n = ev(z3.Length(v.e)).as_long()
            out = []
            for i in range(min(n, 64)):
                x = ev(v.e[i])
                out.append(x.as_string() if z3.is_string_value(x) else (x.as_long() if z3.is_int_value(x) else str(x)))
            return out
        if isinstance(v, VDict):
            d = {}
            for k, e in v.entries.items():
                if e.present is True or z3.is_true(ev(e.present)):
                    d[k if not isinstance(k, V) else repr(k)] = concretize(model, e.value, depth + 1)
            return d
        if isinstance(v, VObj):
            return {"__class__": v.cls.name, **{k: concretize(model, x, depth + 1) for k, x in v.attrs.items()}}
        if isinstance(v, VEnum):
            return {"__enum__": f"{v.cls.name}.{v.name}"}
        if isinstance(v, VTag):
            return {"__tag__": concretize(model, v.tag), "value": concretize(model, v.value, depth + 1)}
        if isinstance(v, VLib):
            return {"__lib__": v.kind, **{k: concretize(model, x, depth + 1) for k, x in v.f.items() if isinstance(x, V)}}
        if isinstance(v, VOpaque):
            from . import plain
            return plain.concretize(model, v)
    except Exception as e:  # model projection must never crash the run
        return f"<unprojectable: {e}>"
    return repr(v)


def jsonable(x):
    if isinstance(x, bytes):
        return {"__hex__": x.hex()}
    if isinstance(x, dict):
        return {str(k): jsonable(v) for k, v in x.items()}
    if isinstance(x, (list, tuple)):
        return [jsonable(i) for i in x]
    if isinstance(x, (int, str, bool)) or x is None:
        return x
    return repr(x)


class PathResult:
    def __init__(self):
        self.outcome = None
        self.obligations = []  # (label, status, detail)
        self.alternatives = []
        self.oos = None
        self.stats = {}


def propagate_literals(hyps, goal):
    """Substitute hypotheses of the form b, Not(b), x == literal into the goal (cheap contextual simplification)."""
    pairs = []
    for h in hyps:
        if z3.is_const(h) and h.decl().kind() == z3.Z3_OP_UNINTERPRETED and z3.is_bool(h):
            pairs.append((h, z3.BoolVal(True)))
        elif z3.is_not(h) and z3.is_const(h.arg(0)) and h.arg(0).decl().kind() == z3.Z3_OP_UNINTERPRETED:
            pairs.append((h.arg(0), z3.BoolVal(False)))
        elif z3.is_eq(h):
            a, b = h.arg(0), h.arg(1)
            for x, y in ((a, b), (b, a)):
                if z3.is_const(x) and x.decl().kind() == z3.Z3_OP_UNINTERPRETED and (z3.is_int_value(y) or z3.is_string_value(y) or z3.is_true(y) or z3.is_false(y)):
                    pairs.append((x, y))
                    break
    if not pairs:
        return goal
    return z3.simplify(z3.substitute(goal, *pairs))


def _check_goal(it, goal, label, inputs, hyps=None):
    """Discharge one goal on the current path. Returns (status, detail)."""
    if label in getattr(it, "already_refuted", ()):
        # this obligation already has a counter-model on another path of the same function: no need to search again
        return "refuted", {"backend": "skipped (refuted on an earlier path)", "counterexample": None}
    if isinstance(goal, bool):
        goal = z3.BoolVal(goal)
    goal = z3.simplify(goal)
    if z3.is_true(goal):
        return "discharged", {"backend": "simplify"}
    facts = (list(it.facts) + list(it.pc)) if hyps is None else hyps
    goal = propagate_literals(facts, goal)
    if z3.is_true(goal):
        return "discharged", {"backend": "simplify"}
    res = smt.prove(facts, goal, timeout_ms=it.solver_timeout_ms)
    it.solver_time += res["time"]
    it.solver_calls += 1
    if res["status"] == "unsat":
        return "discharged", {"backend": res["backend"], "time": res["time"]}
    if res["status"] == "sat":
        model = res["model"]
        cex = {k: jsonable(concretize(model, v)) for k, v in inputs.items()} if model is not None else None
        return "refuted", {"backend": res["backend"], "counterexample": cex, "goal": str(goal)[:600]}
    return "unknown", {"backend": res["backend"], "reason": res.get("reason", "unknown"), "goal": str(goal)[:300]}


def run_path(c, decisions, contracts, world, cfg) -> PathResult:
    pr = PathResult()
    it = Interp(world, decisions, contracts, solver_timeout_ms=cfg.get("timeout_ms", 10000), verifying=c.key)
    if getattr(c, "feas_timeout_ms", None):
        it.FEAS_TIMEOUT_MS = c.feas_timeout_ms  # feasibility budget per branch (unknown = feasible: only the cost changes)
    it.variant_label = cfg.get("variant_label")
    it.already_refuted = cfg.get("already_refuted", set())
    if c.timeout_ms:
        it.solver_timeout_ms = c.timeout_ms
    t0 = time.time()
    inputs = {}
    try:
        fi = it.get_func(c.file, c.func)
        env = Env(None, clauses.spec_env(it))
        args = []
        ptypes = dict(c.params)
        if cfg.get("variant"):
            ptypes.update(cfg["variant"])
        from .types import Computed
        gtypes = dict(c.ghosts)
        if cfg.get("variant"):
            gtypes.update({k: v for k, v in cfg["variant"].items() if k in gtypes})
        for name, _ in c.ghosts:
            v = make_value(it, gtypes[name], name)
            env.set(name, v)
            inputs[name] = v
        for name, _ in c.params:
            t = ptypes[name]
            v = t.fn(it, env) if isinstance(t, Computed) else make_value(it, t, name)
            env.set(name, v)
            inputs[name] = v
            args.append(v)
        if c.setup is not None:
            c.setup(it, env)
        clauses.eval_lets(it, c.lets, env)
        for cl in c.requires_:
            it.assume(clauses.eval_clause(it, cl, env))
        old_env = Env(None, clauses.spec_env(it))
        for k, v in env.vars.items():
            old_env.vars[k] = snapshot(v)
        old_fs = it.fs.mark()
        env.set("__old_env__", OldEnv(old_env, old_fs))
        inputs = dict(old_env.vars)
        inputs.pop("__old_env__", None)
        for pname, pv in getattr(it, "path_params", {}).items():
            from .ghostfs import FS0_BIN, FS0_TXT, FS0_EXISTS
            inputs[f"__fs__{pname}"] = VTuple([VBool(FS0_EXISTS(pv.e)), VBytes(FS0_BIN(pv.e)), VStr(FS0_TXT(pv.e))])
        pr.inputs = inputs
        # vacuity: the precondition must be satisfiable
        if not decisions and it.check_sat() == "unsat":
            pr.outcome = "vacuous-precondition"
            return pr
        outcome, result, exc = "return", NONE, None
        try:
            # parameters map positionally onto the real signature (names must match the source)
            sig = [p.arg for p in fi.node.args.posonlyargs + fi.node.args.args]
            kw = {}
            pos = []
            for (name, _), v in zip(c.params, args):
                if name in sig:
                    pos.append((sig.index(name), v))
                elif fi.node.args.kwarg is not None or name in [a.arg for a in fi.node.args.kwonlyargs]:
                    kw[name] = v
                else:
                    raise OutOfSubset(f"contract parameter {name} is not a parameter of {c.func} (signature changed)")
            pos.sort()
            if [i for i, _ in pos] != list(range(len(pos))):
                # remaining parameters must have defaults
                for i, v in pos:
                    kw[sig[i]] = v
                pos = []
            result = it.call_function(fi, [v for _, v in pos], kw, force_inline=True)
        except PyRaise as e:
            outcome, exc = "raise", e.exc.cls
            pr.raised_where = f"{getattr(e.exc, 'where', '?')}: {getattr(e.exc, 'msg', '')}"
        except PathEnd:
            outcome = "cut"
        pr.outcome = "return" if outcome == "return" else "loop-iteration-checked" if outcome == "cut" else f"raise:{exc.__name__}"
        ctx = Ctx(it, env, old_env, outcome, result, exc)
        env.set("result", result)
        # ---------------- obligations of this path ----------------
        for label, goal, facts, pc in it.call_obligations:
            st, det = _check_goal(it, goal, label, inputs, hyps=facts + pc)
            pr.obligations.append((label, st, det))
        if it.frame_violations:
            pr.obligations.append(("frame:no-global-state", "refuted", {"violations": sorted(set(it.frame_violations)), "counterexample": None, "no_model": True}))
        else:
            pr.obligations.append(("frame:no-global-state", "discharged", {"backend": "executor"}))
        if outcome == "cut":
            pass
        elif outcome == "return":
            for gname, gtype, gwit, _ in c.ghost_outs:
                w = gwit(it, ctx)
                if w is None:
                    raise OutOfSubset(f"ghost result {gname}: witness not found on this path")
                env.set(gname, w)
            clauses.eval_lets(it, c.post_lets, env)
            for cl in c.returns_:
                if cl.extra.get("assumed_only"):
                    # a clause callers may assume but that is NOT proved here (it rests on a part of the callee that is summarised): listed as an assumption
                    it.assumptions_used.add(f"assumed, not proved, at call sites of {c.func}: {cl.text}")
                    continue
                try:
                    goal = clauses.eval_clause(it, cl.via if getattr(cl, "via", None) is not None else cl, env)
                except PyRaise as e:
                    pr.obligations.append((f"post:{cl.label}", "refuted", {"reason": f"clause not evaluable on this path: raised {e.exc.cls.__name__} (result shape differs from the contract)", "counterexample": _model_inputs(it, inputs), "no_model": False}))
                    continue
                st, det = _check_goal(it, goal, cl.label, inputs)
                pr.obligations.append((f"post:{cl.label}", st, det))
            pr.obligations.append(("raises", "discharged", {"backend": "executor"}))
        else:
            matching = [rs for rs in c.raises_ if issubclass(exc, clauses.resolve_exception(it, rs.exc))]
            if not matching:
                # the path is feasible (every branch was checked) -> this exception escapes: ask for a model
                st, det = _check_goal(it, z3.BoolVal(False), f"raises:{exc.__name__}", inputs)
                det["escaping_exception"] = exc.__name__
                det["raised_at"] = getattr(pr, "raised_where", None)
                pr.obligations.append(("raises", st, det))
            else:
                pr.obligations.append(("raises", "discharged", {"backend": "executor"}))
                oe = OldEnv(old_env, old_fs)
                whens = []
                for rs in matching:
                    whens.append(z3.BoolVal(True) if rs.when is None else _eval_old(it, rs.when, old_env, old_fs))
                if not any(z3.is_true(w) for w in whens):
                    lab = "+".join(rs.label for rs in matching)
                    st, det = _check_goal(it, z3.Or(*whens), f"raises-only-when:{lab}", inputs)
                    pr.obligations.append((f"raises-only-when:{lab}", st, det))
                for rs, w in zip(matching, whens):
                    for e in rs.ensures:
                        goal = z3.Implies(w, clauses.eval_clause(it, e, env))
                        st, det = _check_goal(it, goal, e.label, inputs)
                        pr.obligations.append((f"raises-ensures:{e.label}", st, det))
        if outcome == "return":
            for rs in c.raises_:
                if rs.when is not None and rs.must:
                    # normal return only when the condition did NOT hold
                    goal = z3.Not(_eval_old(it, rs.when, old_env, old_fs))
                    st, det = _check_goal(it, goal, f"must-raise:{rs.label}", inputs)
                    pr.obligations.append((f"must-raise:{rs.label}", st, det))
        for label, fn in (c.checks if outcome != "cut" else []):
            try:
                r = fn(it, ctx)
            except PyRaise as e:
                pr.obligations.append((f"check:{label}", "refuted", {"reason": f"check raised {e.exc.cls.__name__}", "counterexample": _model_inputs(it, inputs)}))
                continue
            if r is None:
                continue
            items = r if isinstance(r, list) else [(label, r)]
            for lab, goal in items:
                if goal is None:
                    pr.obligations.append((f"check:{lab}", "unknown", {"backend": "executor", "reason": "the check could not be formulated on this path (e.g. witness not found after a refactoring)"}))
                    continue
                st, det = _check_goal(it, goal, lab, inputs)
                pr.obligations.append((f"check:{lab}", st, det))
    except OutOfSubset as e:
        pr.oos = str(e)
        pr.outcome = "out-of-reach"
    except Infeasible:
        pr.outcome = "infeasible"
    pr.alternatives = it.new_alternatives
    pr.stats = {"solver_s": it.solver_time, "solver_calls": it.solver_calls, "wall_s": time.time() - t0,
                "inlined": sorted(it.inlined), "stubs": sorted(it.used_stubs), "assumptions": sorted(it.assumptions_used)}
    pr.decisions = list(it.decisions)
    return pr


def _model_inputs(it, inputs):
    s = it._solver()
    if s.check() == z3.sat:
        m = s.model()
        return {k: jsonable(concretize(m, v)) for k, v in inputs.items()}
    return None


def _eval_old(it, clause, old_env, old_fs):
    from .ghostfs import OldView
    with OldView(it.fs, old_fs):
        return clauses.eval_clause(it, clause, old_env)


def verify_contract(c, contracts, cfg=None):
    """Explore all paths of c's function; aggregate obligations by label."""
    cfg = dict(cfg or {})
    world = World()
    t0 = time.time()
    worklist = [[]]
    paths = 0
    agg = {}  # label -> dict(status, paths, failing)
    outcomes = {}
    oos = []
    stats = {"solver_s": 0.0, "solver_calls": 0, "inlined": set(), "stubs": set(), "assumptions": set()}
    sha = None
    where = None
    error = None
    vacuous = False
    samples = []
    budget_s = cfg.get("budget_s")
    stopped_after_refutation = False
    while worklist:
        if paths >= c.max_paths:
            oos.append(f"path budget {c.max_paths} exhausted")
            break
        if budget_s is not None and time.time() - t0 > budget_s:
            oos.append(f"time budget of {budget_s}s per function exhausted after {paths} paths")
            break
        if any(a["status"] == "refuted" and (a["failing"] or {}).get("counterexample") is not None for a in agg.values()) and paths >= 1:
            # a counter-model exists: the verdict on this function is settled, the remaining paths are not needed for it
            stopped_after_refutation = True
            break
        decisions = worklist.pop()
        cfg["already_refuted"] = {l.split(":", 1)[1] if ":" in l else l for l, a in agg.items() if a["status"] == "refuted"}
        try:
            pr = run_path(c, decisions, contracts, world, cfg)
        except KeyError as e:
            error = f"function not found: {e}"
            break
        paths += 1
        if sha is None:
            try:
                it0 = Interp(world, [], contracts)
                fi = it0.get_func(c.file, c.func)
                sha, where = fi.source_sha256, fi.where
            except Exception:
                pass
        outcomes[pr.outcome] = outcomes.get(pr.outcome, 0) + 1
        if pr.outcome == "vacuous-precondition":
            vacuous = True
            break
        if pr.oos:
            oos.append(pr.oos)
        for alt in pr.alternatives:
            worklist.append(alt)
        for k in ("solver_s", "solver_calls"):
            stats[k] += pr.stats.get(k, 0)
        for k in ("inlined", "stubs", "assumptions"):
            stats[k].update(pr.stats.get(k, []))
        for label, st, det in pr.obligations:
            a = agg.setdefault(label, {"status": "discharged", "paths": 0, "backends": {}, "failing": None})
            a["paths"] += 1
            b = det.get("backend", "?") if isinstance(det, dict) else "?"
            a["backends"][b] = a["backends"].get(b, 0) + 1
            rank = {"discharged": 0, "unknown": 1, "refuted": 2}
            if rank[st] > rank[a["status"]]:
                a["status"] = st
                a["failing"] = {"path_outcome": pr.outcome, "decisions": pr.decisions, **(det if isinstance(det, dict) else {})}
        if len(samples) < 3 and pr.outcome not in ("infeasible",):
            samples.append({"path": paths, "outcome": pr.outcome, "obligations": [f"{l}={s}" for l, s, _ in pr.obligations][:12]})
    # syntactic frame scan (over-approximation, independent of path exploration)
    try:
        from . import framescan
        it0 = Interp(world, [], contracts)
        hits = framescan.scan(it0.get_func(c.file, c.func))
        if hits:
            agg["frame:syntactic-no-shared-state"] = {"status": "refuted", "paths": 1, "backends": {"ast-scan": 1},
                                                       "failing": {"violations": hits, "no_model": True, "counterexample": None, "backend": "ast-scan"}}
        else:
            agg["frame:syntactic-no-shared-state"] = {"status": "discharged", "paths": 1, "backends": {"ast-scan": 1}, "failing": None}
    except KeyError:
        pass
    # every clause of the contract must have been exercised on at least one path (zero-obligation guard)
    expected = [f"post:{cl.label}" for cl in c.returns_ if not cl.extra.get("assumed_only")]
    missing = [l for l in expected if l not in agg] if not stopped_after_refutation else []
    if stopped_after_refutation:
        for a in agg.values():
            if a["status"] == "discharged" and not any(k in ("ast-scan",) for k in a["backends"]):
                a["status"] = "unknown"
                a["failing"] = {"reason": "exploration of this function stopped after another obligation was refuted with a counter-model"}
    # combined hash of everything whose text determines these obligations: the function and the callees inlined into it
    import hashlib
    comb = hashlib.sha256((sha or "").encode())
    try:
        it1 = Interp(world, [], contracts)
        for name in sorted(stats["inlined"]):
            rel, qn = name.split(":", 1)
            if rel.startswith("contracts/"):
                continue
            try:
                comb.update(it1.get_func(rel, qn).source_sha256.encode())
            except Exception:
                comb.update(name.encode())
    except Exception:
        pass
    res = {
        "function": c.func, "file": c.file, "where": where, "source_sha256": sha, "combined_sha256": comb.hexdigest(), "properties": c.props,
        "paths": paths, "outcomes": outcomes, "obligations": agg, "out_of_reach": sorted(set(oos)),
        "missing_obligations": missing, "vacuous": vacuous, "error": error,
        "inlined": sorted(stats["inlined"]), "stubs": sorted(stats["stubs"]), "assumptions": sorted(stats["assumptions"]),
        "solver_s": round(stats["solver_s"], 3), "solver_calls": stats["solver_calls"], "wall_s": round(time.time() - t0, 3),
        "samples": samples,
    }
    return res
