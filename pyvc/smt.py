"""Solver portfolio: z3 (API) first; `unknown` is re-run on cvc5 (CLI, SMT-LIB2 export)."""
from __future__ import annotations
import os
import subprocess
import tempfile
import time
import z3

CVC5 = "/usr/bin/cvc5"
USE_CVC5 = os.environ.get("PYVC_NO_CVC5") != "1"


def prove(hyps, goal, timeout_ms=10000, want_model=True):
    """Is hyps |= goal ?  -> {'status': 'unsat'(proved) | 'sat'(counter-model) | 'unknown', ...}"""
    t0 = time.time()
    s = z3.Solver()
    s.set("timeout", timeout_ms)
    for h in hyps:
        s.add(h)
    s.add(z3.Not(goal))
    r = s.check()
    dt = time.time() - t0
    if r == z3.unsat:
        return {"status": "unsat", "backend": "z3", "time": dt}
    if r == z3.sat:
        m = s.model()
        bad = _model_violates(m, hyps, goal)
        if bad is None:
            return {"status": "sat", "backend": "z3", "time": dt, "model": m if want_model else None}
        # z3's sequence solver occasionally answers `sat` with an assignment that does not satisfy the query (seen with nested
        # if-then-else under concatenation).  Such an answer is NOT a counter-model: retry with the term-ite eliminated, then other seeds.
        for attempt in range(3):
            s3 = z3.Then("simplify", "elim-term-ite", "solve-eqs", "smt").solver() if attempt == 0 else z3.Solver()
            s3.set("timeout", timeout_ms)
            if attempt > 0:
                s3.set("random_seed", 17 * attempt)
            for h in hyps:
                s3.add(h)
            s3.add(z3.Not(goal))
            r3 = s3.check()
            if r3 == z3.unsat:
                return {"status": "unsat", "backend": "z3-retry", "time": time.time() - t0}
            if r3 == z3.sat and _model_violates(s3.model(), hyps, goal) is None:
                return {"status": "sat", "backend": "z3-retry", "time": time.time() - t0, "model": s3.model() if want_model else None}
        if USE_CVC5:
            c = cvc5_check(s, timeout_ms)
            if c == "unsat":
                return {"status": "unsat", "backend": "cvc5", "time": time.time() - t0}
        return {"status": "unknown", "backend": "z3", "time": time.time() - t0, "reason": f"z3 answered sat with an assignment that does not satisfy the query ({bad}); retries inconclusive"}
    reason = s.reason_unknown()
    # length relaxation: Length(t) of every sequence term becomes a free non-negative integer. Unsat of the relaxation
    # implies unsat of the query (it only forgets constraints); a model of it is a *candidate* (lengths only).
    rel = relaxed_lengths(hyps + [z3.Not(goal)])
    if rel is not None:
        s2 = z3.Solver()
        s2.set("timeout", min(timeout_ms, 5000))
        for h in rel:
            s2.add(h)
        r2 = s2.check()
        if r2 == z3.unsat:
            return {"status": "unsat", "backend": "z3-length-relaxation", "time": time.time() - t0}
        if r2 == z3.sat:
            return {"status": "unknown", "backend": "z3", "time": time.time() - t0, "reason": f"{reason}; the length-only relaxation is satisfiable (a counter-model would need sequences of these lengths)",
                    "relaxed_model": str(s2.model())[:600]}
    if USE_CVC5:
        c = cvc5_check(s, timeout_ms)
        if c == "unsat":
            return {"status": "unsat", "backend": "cvc5", "time": time.time() - t0}
    return {"status": "unknown", "backend": "z3+cvc5" if USE_CVC5 else "z3", "time": time.time() - t0, "reason": reason}


def _model_violates(m, hyps, goal):
    """None if the model satisfies every hypothesis and falsifies the goal (as far as evaluation can tell); else a description."""
    try:
        g = m.eval(goal, model_completion=True)
        if z3.is_true(g):
            return "the goal evaluates to true under it"
        for h in hyps:
            v = m.eval(h, model_completion=True)
            if z3.is_false(v):
                return "a hypothesis evaluates to false under it: " + str(h)[:120].replace("\n", " ")
    except Exception as e:  # evaluation is best effort
        return None
    return None


def cvc5_check(solver, timeout_ms):
    """Run the same query through the cvc5 CLI; only an `unsat` answer is used (models are taken from z3)."""
    try:
        smt2 = solver.to_smt2()
    except Exception:
        return "unknown"
    smt2 = "(set-logic ALL)\n" + smt2
    try:
        with tempfile.NamedTemporaryFile("w", suffix=".smt2", delete=False) as fh:
            fh.write(smt2)
            path = fh.name
        try:
            p = subprocess.run([CVC5, "--strings-exp", f"--tlimit={timeout_ms}", path], capture_output=True, text=True,
                               timeout=timeout_ms / 1000 + 5)
            out = p.stdout.strip().splitlines()
            return out[0] if out else "unknown"
        finally:
            os.unlink(path)
    except Exception:
        return "unknown"


def relaxed_lengths(formulas):
    """Replace every seq.len/str.len application by a fresh non-negative Int constant; None if there is none."""
    cache = {}
    extra = []

    def walk(e):
        k = e.get_id()
        if k in cache:
            return cache[k]
        if z3.is_app(e):
            if e.decl().kind() == z3.Z3_OP_SEQ_LENGTH:
                v = z3.Int(f"len!{len(extra)}")
                extra.append(v >= 0)
                cache[k] = v
                return v
            ch = [walk(c) for c in e.children()]
            r = e.decl()(*ch) if ch else e
        else:
            r = e
        cache[k] = r
        keep.append(e)
        return r
    keep = []
    try:
        out = [walk(f) for f in formulas]
    except Exception:
        return None
    if not extra:
        return None
    return out + extra
