"""Contract objects (sidecar specifications on the repository's real functions)."""
from __future__ import annotations
import ast

REGISTRY = {}  # (relpath, qualname) -> Contract
BY_PROPERTY = {}  # property id -> [Contract]
LEMMAS = {}  # property id -> [Lemma]
LOOP_SPECS = {}  # (relpath, qualname) -> {variable name: shape}  loop-carried state of loops over symbolic collections ("__while__": True enables the rule for while loops)


class Clause:
    def __init__(self, label, text, kind, **extra):
        self.label = label
        self.text = " ".join(text.split()) if isinstance(text, str) else text
        self.kind = kind
        self.extra = extra
        self.node = ast.parse(self.text, mode="eval").body if isinstance(text, str) else None

    def __repr__(self):
        return f"{self.kind}:{self.label}"


class RaisesSpec:
    def __init__(self, exc, when=None, ensures=None, label=None, modifies=None, must=None):
        self.must = (when is not None) if must is None else must  # condition => the call MUST raise
        self.exc = exc  # exception class name, e.g. 'ValueError', 'GeneratorError', 'cbor2.CBORDecodeError'
        self.when = Clause(label or exc, when, "raises-when") if when else None
        self.ensures = [Clause(f"{label or exc}.{i}", e, "raises-ensures") for i, e in enumerate(ensures or [])]
        self.label = label or exc
        self.modifies = modifies or []


class Contract:
    def __init__(self, file, func, props, doc=""):
        self.file = file
        self.func = func
        self.props = list(props)
        self.doc = doc
        self.params = []  # [(name, Type)]
        self.ghosts = []
        self.ghost_outs = []
        self.requires_ = []
        self.returns_ = []
        self.raises_ = []
        self.result_type = None
        self.modifies_ = []  # attribute paths ("self.cache_data") havoced at call sites
        self.modifies_types = {}
        self.checks = []  # (label, fn(it, ctx) -> z3 Bool | bool | list[(label, goal)])
        self.setup = None  # fn(it, env) run after parameters are created (ghost state, extra assumptions)
        self.lets = []  # (name, Clause) evaluated in order in the entry state; visible to all clauses
        self.post_lets = []  # evaluated in the exit state (may use result)
        self.max_paths = 4000
        self.native = None  # replay adapter: fn(model_inputs) -> (callable, args, kwargs)
        self.model_only = False  # contract used only at call sites (function body out of reach)
        self.apply_fn = None  # custom call-site semantics fn(it, contract, fi, args, kwargs) -> V for contracts whose post is a spec function of the arguments
        self.callers_inline = False  # verified on its own, but callers inline the body (contract talks about ghosts of its own harness)
        self.modular_only_reason = None
        self.variants = None  # list of (variant label, dict of param-type overrides)
        self.pure = False
        self.timeout_ms = None
        self.scope = None  # set of property ids: used modularly at call sites only while a contract of one of these properties is verified
        key = (file, func)
        REGISTRY[key] = self
        for p in self.props:
            BY_PROPERTY.setdefault(p, []).append(self)

    # --- builders -------------------------------------------------------------------------------
    def param(self, name, type_):
        self.params.append((name, type_))
        return self

    def ghost(self, name, type_):
        """A specification-only parameter (existential witness of the precondition / abstract state)."""
        self.ghosts.append((name, type_))
        return self

    def ghost_out(self, name, type_, witness, native):
        """Ghost RESULT (existential witness of the postcondition): when the function itself is verified the witness is
        computed by `witness(it, ctx)`; at call sites it is a fresh symbol of `type_`; natively it is the expression `native`."""
        self.ghost_outs.append((name, type_, witness, native))
        return self

    def let(self, name, text):
        self.lets.append((name, Clause(name, text, "let")))
        return self

    def post_let(self, name, text):
        self.post_lets.append((name, Clause(name, text, "let")))
        return self

    def requires(self, label, text, input_assumption=False):
        """Precondition. input_assumption=True: an assumption about the (whole, possibly nested) INPUT stated over ghosts of the
        verification harness; it is assumed when the function is verified, listed as an assumption, and neither checked nor
        assumed at call sites (where the ghosts do not exist)."""
        cl = Clause(label, text, "requires")
        cl.input_assumption = input_assumption
        self.requires_.append(cl)
        return self

    def returns(self, label, text, via=None, **extra):
        """Postcondition on normal return. `via`: a STRONGER formula that is proved instead (proof hint, e.g. an explicit
        witness for an existential such as divisibility); callers assume `text`, native evaluation uses `text`."""
        cl = Clause(label, text, "post", **extra)
        cl.via = Clause(label + "@via", via, "post") if via else None
        self.returns_.append(cl)
        return self

    def raises(self, exc, when=None, ensures=None, label=None, modifies=None, must=None):
        self.raises_.append(RaisesSpec(exc, when, ensures, label, modifies, must))
        return self

    def result(self, type_):
        self.result_type = type_
        return self

    def modifies(self, *paths, **typed):
        self.modifies_.extend(paths)
        self.modifies_.extend(typed.keys())
        self.modifies_types.update(typed)
        return self

    def loops(c_self, while_rule=False, body_check=None, decreases=None, **carried):
        """Invariant of the loops over collections of symbolic size in this function: the shape of every loop-carried variable;
        body_check(it, env, trace_mark) -> [(label, goal)]: element-wise postcondition of one arbitrary iteration."""
        spec = dict(carried)
        if while_rule:
            spec["__while__"] = True
        if body_check is not None:
            spec["__body_check__"] = body_check
        if decreases is not None:
            spec["__decreases__"] = decreases  # fn(it, env) -> VInt: the variant of the while loops of this function
        LOOP_SPECS[c_self.key] = spec
        return c_self

    def check(self, label, fn):
        self.checks.append((label, fn))
        return self

    @property
    def key(self):
        return (self.file, self.func)

    @property
    def name(self):
        return f"{self.file}:{self.func}"


class Lemma:
    """A closed obligation over spec terms (no code): built by fn(ctx) -> list[(label, hyps, goal)]."""

    def __init__(self, prop, name, fn, doc=""):
        self.prop, self.name, self.fn, self.doc = prop, name, fn, doc
        LEMMAS.setdefault(prop, []).append(self)
