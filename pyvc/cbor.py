"""ASSUMED contract of cbor2 (DESIGN.md 2.4 / Appendix B): ENC = RFC 8949 definite-length shortest-form encoding.

`enc` builds the encoding of a known-shape value structurally; the head of a symbolic length/integer is a
term HEAD(major, n) with *defining* facts per width (no path forking).  `loads` uses law A1
`loads(ENC(x) ++ rest) == x` only syntactically: a byte term that was produced by `enc` (or declared as an
encoding by a contract type) decodes to a copy of its origin, with cbor2 6's immutability under tags.
Any other byte string decodes to an opaque Plain value (see plain.py).
"""
from __future__ import annotations
import z3

from .values import V, VNone, NONE, VInt, VBool, VBytes, VStr, VFloat, VList, VTuple, VSeq, VDict, DEntry, VObj, \
    VClass, VEnum, VFunc, VBuiltin, VTag, VOpaque, VExc, VLib, PyRaise, OutOfSubset, mk, conc_key, BSort, SSort
from . import stubs

I = z3.IntSort()
HEADF = z3.Function("CBOR_HEAD", I, I, BSort)


def head_conc(major: int, n: int) -> bytes:
    if n < 24:
        return bytes([major * 32 + n])
    if n < 2 ** 8:
        return bytes([major * 32 + 24, n])
    if n < 2 ** 16:
        return bytes([major * 32 + 25]) + n.to_bytes(2, "big")
    if n < 2 ** 32:
        return bytes([major * 32 + 26]) + n.to_bytes(4, "big")
    if n < 2 ** 64:
        return bytes([major * 32 + 27]) + n.to_bytes(8, "big")
    raise OverflowError


def head(it, major: int, n: VInt) -> VBytes:
    """Caller guarantees 0 <= n < 2**64 on this path."""
    if n.conc is not None:
        return VBytes(head_conc(major, n.conc))
    key = ("head", major, n.e.sexpr())
    if key in it.euclid:
        return it.euclid[key]
    t = HEADF(z3.IntVal(major), n.e)
    m = major * 32
    U = z3.Unit
    it.assume(z3.Implies(n.e < 24, t == U(m + n.e)))
    it.assume(z3.Implies(z3.And(n.e >= 24, n.e < 256), t == z3.Concat(U(z3.IntVal(m + 24)), U(n.e))))
    for width, code, lo, hi in ((2, 25, 2 ** 8, 2 ** 16), (4, 26, 2 ** 16, 2 ** 32), (8, 27, 2 ** 32, 2 ** 64)):
        bs = [z3.Int(it.fresh_name(f"hb{width}_{i}")) for i in range(width)]
        rng = z3.And(n.e >= lo, n.e < hi)
        it.assume(z3.Implies(rng, z3.And(*[z3.And(b >= 0, b <= 255) for b in bs])))
        it.assume(z3.Implies(rng, n.e == z3.Sum([bs[i] * (256 ** (width - 1 - i)) for i in range(width)])))
        it.assume(z3.Implies(rng, t == z3.Concat(U(z3.IntVal(m + code)), *[U(b) for b in bs])))
    it.assume(z3.Length(t) == z3.If(n.e < 24, 1, z3.If(n.e < 256, 2, z3.If(n.e < 2 ** 16, 3, z3.If(n.e < 2 ** 32, 5, 9)))))
    r = VBytes(t)
    it.euclid[key] = r
    return r


def _len_ok(it, n: VInt):
    # container and string lengths are below 2**64 (global assumption on fresh sequences: < 2**63)
    if n.conc is None:
        it.assume(z3.And(n.e >= 0, n.e < 2 ** 64))


def okey(e):
    """Key of a byte term in the origin table: its simplified form (terms travel through hex()/upper()/unhex() and value
    constructors that simplify them, so the table is keyed by the normal form)."""
    return z3.simplify(e).sexpr()


def register(it, data: VBytes, value: V):
    if data.conc is None:
        it.enc_origins = getattr(it, "enc_origins", {})
        k = okey(data.e)
        it.enc_origins[k] = value
        it.enc_origin_terms = getattr(it, "enc_origin_terms", {})
        it.enc_origin_terms[k] = (data.e, value)


def enc(it, v: V, canonical=False) -> VBytes:
    if canonical:
        # canonical=True: the same encoding of the value with every map's keys put in canonical order (shortest encoded key first, then bytewise)
        return enc(it, _canonical_order(it, v))
    r = _enc(it, v)
    from . import relmap
    register(it, r, relmap.snapshot(it, v) if relmap.contains_rel(v) else v)
    return r


def _canonical_order(it, v):
    if isinstance(v, VTag):
        return VTag(v.tag, _canonical_order(it, v.value))
    if isinstance(v, (VList, VTuple)):
        return type(v)([_canonical_order(it, x) for x in v.items])
    if isinstance(v, VDict):
        from .interp import mk_key
        keys = it.dict_keys(v)
        encs = {}
        for k in keys:
            e = _enc(it, mk_key(k))
            if e.conc is None:
                raise OutOfSubset("canonical encoding of a map with a symbolic key")
            encs[k] = e.conc
        d = VDict(frozen=v.frozen)
        for k in sorted(keys, key=lambda k: (len(encs[k]), encs[k])):
            d.entries[k] = DEntry(k, _canonical_order(it, v.entries[k].value))
        return d
    if isinstance(v, (VInt, VBool, VBytes, VStr, VNone)):
        return v
    raise OutOfSubset(f"canonical encoding of {type(v).__name__}")


def _enc(it, v: V) -> VBytes:
    cat = stubs.concat_bytes
    if isinstance(v, VBool):
        if v.conc is not None:
            return VBytes(b"\xf5" if v.conc else b"\xf4")
        return VBytes(z3.Unit(z3.If(v.e, 0xF5, 0xF4)))
    if isinstance(v, VInt):
        if v.conc is not None:
            if not -2 ** 64 <= v.conc < 2 ** 64:
                raise OutOfSubset("CBOR bignum")
            return VBytes(head_conc(0, v.conc) if v.conc >= 0 else head_conc(1, -1 - v.conc))
        if not it.branch(z3.And(v.e >= -2 ** 64, v.e < 2 ** 64)):
            raise OutOfSubset("CBOR bignum (|int| >= 2**64)")
        if it.branch(v.e >= 0):
            return head(it, 0, v)
        return head(it, 1, VInt(-1 - v.e))
    if isinstance(v, VBytes):
        n = stubs.bytes_len_k(it, v)
        _len_ok(it, n)
        return cat(head(it, 2, n), v)
    if isinstance(v, VStr):
        u = stubs.utf8_of(it, v)
        n = stubs.bytes_len(u)
        _len_ok(it, n)
        return cat(head(it, 3, n), u)
    if isinstance(v, VNone):
        return VBytes(b"\xf6")
    if isinstance(v, (VList, VTuple)):
        out = VBytes(head_conc(4, len(v.items)))
        for x in v.items:
            out = cat(out, enc(it, x))
        return out
    if isinstance(v, VDict):
        from .interp import mk_key
        keys = it.dict_keys(v)
        out = VBytes(head_conc(5, len(keys)))
        for k in keys:
            out = cat(out, enc(it, mk_key(k)))
            out = cat(out, enc(it, v.entries[k].value))
        return out
    if isinstance(v, VTag):
        if not isinstance(v.tag, VInt) or v.tag.conc is None:
            raise OutOfSubset("symbolic tag number")
        return cat(VBytes(head_conc(6, v.tag.conc)), enc(it, v.value))
    if isinstance(v, VOpaque):
        from . import plain
        return plain.enc(it, v)
    if isinstance(v, VLib) and v.kind == "RelMap":
        from . import relmap
        return relmap.enc(it, v)
    if isinstance(v, VObj) and "__dict_base__" in v.attrs:
        return enc(it, v.attrs["__dict_base__"])
    if isinstance(v, VFloat):
        raise OutOfSubset("CBOR float")
    # cbor2 raises CBOREncodeError for unserialisable objects
    import cbor2
    it.raise_(cbor2.CBOREncodeError, f"cannot serialize type {type(v).__name__}")


def decoded_copy(v: V, under_tag=False, it=None) -> V:
    """What cbor2.loads returns for the encoding of v (cbor2 6: containers under a tag are immutable)."""
    if isinstance(v, VLib) and v.kind == "RelMap":
        if it is None:
            raise OutOfSubset("decode of a mapping of unbounded size outside cbor2.loads")
        from . import relmap
        return relmap.copy_map(it, v, frozen=under_tag)
    if isinstance(v, (VList, VTuple)):
        items = [decoded_copy(x, under_tag) for x in v.items]
        return VTuple(items) if under_tag else VList(items)
    if isinstance(v, VDict):
        d = VDict(frozen=under_tag)
        for k, e in v.entries.items():
            if e.present is not True:
                raise OutOfSubset("decode of a dict with symbolic presence")
            kk = k
            d.entries[kk] = DEntry(kk, decoded_copy(e.value, under_tag))
        return d
    if isinstance(v, VTag):
        return VTag(v.tag, decoded_copy(v.value, True, it))
    if isinstance(v, VObj) and "__dict_base__" in v.attrs:
        return decoded_copy(v.attrs["__dict_base__"], under_tag)
    return v


def lift_native(x, under_tag=False) -> V:
    import cbor2
    if isinstance(x, cbor2.CBORTag):
        return VTag(VInt(x.tag), lift_native(x.value, True))
    if isinstance(x, (list, tuple)):
        items = [lift_native(i, under_tag) for i in x]
        return VTuple(items) if isinstance(x, tuple) else VList(items)
    if isinstance(x, (dict, cbor2.frozendict)):
        d = VDict(frozen=isinstance(x, cbor2.frozendict))
        for k, v in x.items():
            kk = conc_key(lift_native(k, under_tag))
            d.entries[kk] = DEntry(kk, lift_native(v, under_tag))
        return d
    if isinstance(x, (int, str, bytes, bool)) or x is None:
        return mk(x)
    raise OutOfSubset(f"decoded native value {type(x).__name__}")


def loads(it, data: V) -> V:
    import cbor2
    if not isinstance(data, VBytes):
        it.raise_(TypeError, "a bytes-like object is required")
    if data.conc is not None:
        try:
            return lift_native(cbor2.loads(data.conc))
        except cbor2.CBORDecodeError:
            it.raise_(cbor2.CBORDecodeError, "decode error")
    origins = getattr(it, "enc_origins", {})
    o = origins.get(okey(data.e))
    if o is not None:
        return decoded_copy(o, it=it)
    # semantic lookup: the bytes are provably equal to a known encoding (e.g. stated by a precondition)
    if len(origins) <= 12:
        for key, (term, val) in getattr(it, "enc_origin_terms", {}).items():
            if it.must(data.e == term):
                return decoded_copy(val, it=it)
    from . import plain
    return plain.loads(it, data)
