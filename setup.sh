#!/bin/bash
# Offline build of the overlay interpreter used by every check:
# Python 3.12 venv with z3-solver/cvc5/jsonschema from the local wheelhouse, plus a .pth
# that makes /venv's site-packages (cbor2, cryptography, intelhex, editable suit_generator)
# importable. Idempotent; the `check` wrapper calls it when the venv is missing.
set -e
cd "$(dirname "$0")"
V=.venv312
if [ -x "$V/bin/python" ] && "$V/bin/python" -c "import z3, cvc5, cbor2, jsonschema, suit_generator" 2>/dev/null; then
  exit 0
fi
rm -rf "$V"
/venv/bin/python -m venv "$V"
PIP_NO_INDEX=1 "$V/bin/python" -m pip install -q --no-index --find-links /opt/veriftools/wheels \
    z3-solver cvc5 jsonschema crosshair-tool deal icontract hypothesis >/dev/null
echo "import site; site.addsitedir('/venv/lib/python3.12/site-packages')" \
    > "$V/lib/python3.12/site-packages/repo_deps.pth"
"$V/bin/python" -c "import z3, cvc5, cbor2, jsonschema, suit_generator; print('overlay venv ok, z3', z3.get_version_string())"
